"""Shared runner plumbing: accumulators, parallel map, evidence, violations, known findings.

A property module (props/cNN_*.py) defines

    ID, LEVEL, RULE, ASSUMPTIONS (list, optional)
    def run(ctx) -> Acc            # explores, returns merged accumulator
    def replay(case) -> list[str]  # re-runs ONE recorded case, returns violation messages

Everything a module explores goes through an `Acc`, which is what the evidence file is written from.
"""
from __future__ import annotations

import atexit
import hashlib
import json
import multiprocessing
import os
import shutil
import sys
import tempfile
import time
import traceback

VERIF = os.path.dirname(os.path.dirname(os.path.abspath(__file__)))

STANDING_ASSUMPTIONS = [
    "CPython 3.12 from /venv, run without -O (cpppo uses assert as its error path)",
    "logging at CRITICAL (log calls are guarded, only cost changes)",
    "cpppo imported from /repo's working tree (editable install) or $VERIF_REPO; fresh process per run",
    "PYTHONHASHSEED=0; VERIF_SEED only permutes exploration order, never the explored set",
]


def h64(obj) -> int:
    """Stable 64-bit hash of a JSON-able / repr-able object (independent of PYTHONHASHSEED)."""
    if not isinstance(obj, (bytes, bytearray)):
        obj = repr(obj).encode("utf-8", "backslashreplace")
    return int.from_bytes(hashlib.blake2b(obj, digest_size=8).digest(), "big")


def jsonable(x):
    if isinstance(x, (bytes, bytearray)):
        return {"hex": bytes(x).hex()}
    if isinstance(x, dict):
        return {str(k): jsonable(v) for k, v in x.items()}
    if isinstance(x, (list, tuple)):
        return [jsonable(v) for v in x]
    if isinstance(x, (set, frozenset)):
        return sorted((jsonable(v) for v in x), key=repr)
    if isinstance(x, float):
        if x != x or x in (float("inf"), float("-inf")):
            return repr(x)
        return x
    if isinstance(x, (int, str, bool)) or x is None:
        return x
    return repr(x)


def unjson(x):
    """Inverse of jsonable for the {hex:..} convention."""
    if isinstance(x, dict):
        if set(x.keys()) == {"hex"}:
            return bytes.fromhex(x["hex"])
        return {k: unjson(v) for k, v in x.items()}
    if isinstance(x, list):
        return [unjson(v) for v in x]
    return x


class Acc:
    """What one worker (or the whole run) explored."""

    MAX_VIOL = 25
    MAX_SAMPLES = 6

    def __init__(self):
        self.evaluations = 0
        self.nontrivial = set()      # 64-bit hashes of distinct non-trivial cases
        self.nontrivial_n = 0        # + cases distinct by construction (enumerated once), counted
        self.outcomes = {}           # outcome key -> count  (vacuity guards)
        self.counters = {}           # free counters (states, transitions, caps ...)
        self.violations = []         # [{kind, case, msg}]
        self.violations_total = 0
        self.samples = []
        self.states = set()          # 64-bit hashes of canonical states (E-state)
        self.notes = []
        self.succ = set()            # successor states reported by an expansion shard (E-state BFS)

    # -- recording -----------------------------------------------------------------------------
    def ev(self, n=1):
        self.evaluations += n

    def nt(self, key):
        self.nontrivial.add(key if isinstance(key, int) else h64(key))

    def ntc(self, n=1):
        """non-trivial case that the enumeration yields exactly once (distinct by construction)"""
        self.nontrivial_n += n

    @property
    def n_nontrivial(self):
        return len(self.nontrivial) + self.nontrivial_n

    def outcome(self, key, n=1):
        self.outcomes[key] = self.outcomes.get(key, 0) + n

    def count(self, name, n=1):
        self.counters[name] = self.counters.get(name, 0) + n

    def cmax(self, name, v):
        if v > self.counters.get(name, v - 1):
            self.counters[name] = v

    def state(self, key):
        k = key if isinstance(key, int) else h64(key)
        new = k not in self.states
        self.states.add(k)
        return new

    def sample(self, case):
        if len(self.samples) < self.MAX_SAMPLES:
            self.samples.append(jsonable(case))

    def violation(self, kind, case, msg):
        """kind: short stable classification (used to match known findings); case: replayable."""
        self.violations_total += 1
        if len(self.violations) < self.MAX_VIOL or not any(v["kind"] == kind for v in self.violations):
            v = {"kind": kind, "case": jsonable(case), "msg": str(msg)[:2000]}
            sh = getattr(self, "_shard", None)
            if sh is not None:
                # where it was found: lets the CLI fall back to re-running this whole shard in a fresh process when the case alone
                # does not reproduce (state carried from earlier cases of the same shard)
                v["shard"] = {"mod": sh[0], "fname": sh[1], "item": jsonable(sh[2]), "tier": sh[3]}
            self.violations.append(v)

    def note(self, s):
        if s not in self.notes:
            self.notes.append(s)

    # -- merging -------------------------------------------------------------------------------
    def merge(self, other: "Acc"):
        self.evaluations += other.evaluations
        self.nontrivial |= other.nontrivial
        self.nontrivial_n += other.nontrivial_n
        self.states |= other.states
        for k, v in other.outcomes.items():
            self.outcomes[k] = self.outcomes.get(k, 0) + v
        for k, v in other.counters.items():
            if k.startswith("max_"):
                self.counters[k] = max(self.counters.get(k, v), v)
            else:
                self.counters[k] = self.counters.get(k, 0) + v
        for v in other.violations:
            if len(self.violations) < 4 * self.MAX_VIOL or not any(x["kind"] == v["kind"] for x in self.violations):
                self.violations.append(v)
        self.violations_total += other.violations_total
        for s in other.samples:
            if len(self.samples) < self.MAX_SAMPLES:
                self.samples.append(s)
        for n in other.notes:
            self.note(n)
        self.succ |= other.succ
        return self


class HarnessError(Exception):
    """The check itself is broken (exit 2) -- never reported as a VIOLATION."""


# ------------------------------------------------------------------------------------------------
# repo selection

_linkdir = None


def setup_repo_path():
    """Honour VERIF_REPO=<dir with a cpppo checkout>: make `import cpppo` resolve there."""
    global _linkdir
    repo = os.environ.get("VERIF_REPO")
    if repo:
        repo = os.path.abspath(repo)
        if not os.path.exists(os.path.join(repo, "automata.py")):
            raise HarnessError("VERIF_REPO=%s is not a cpppo checkout" % repo)
        _linkdir = tempfile.mkdtemp(prefix="cpppo-verif-link.")
        os.symlink(repo, os.path.join(_linkdir, "cpppo"))
        sys.path.insert(0, _linkdir)
        atexit.register(shutil.rmtree, _linkdir, True)
    return repo or "/repo"


def quiet_logging():
    import logging
    logging.disable(logging.CRITICAL)


# ------------------------------------------------------------------------------------------------
# parallel map

def _worker_init(seed):
    quiet_logging()
    os.environ["VERIF_WORKER"] = "1"


def _call(args):
    modname, fname, item, tier, seed = args
    mod = sys.modules.get(modname) or __import__(modname, fromlist=["x"])
    acc = Acc()
    acc._shard = (modname, fname, item, tier)
    try:
        getattr(mod, fname)(acc, item, tier, seed)
    except HarnessError:
        raise
    except BaseException as exc:  # an escape from a shard is a harness problem; cases catch their own
        raise HarnessError("shard %r of %s.%s died: %s\n%s" % (
            item if len(repr(item)) < 200 else repr(item)[:200], modname, fname, exc, traceback.format_exc()))
    return acc


_preloaded = set()


def _call_isolated(args):
    """Run one shard in a forked child of this (pristine) worker process: whatever process-level state the code under test
    accumulates (class-level caches, module-level tables, stuck threads) dies with the child, so every shard starts from the
    same state and a violation's replay case -- which re-runs at most its own shard -- is faithful."""
    import pickle
    if args[0] not in _preloaded:
        _preloaded.add(args[0])
        _preload(args[0])
    r, w = os.pipe()
    pid = os.fork()
    if pid == 0:
        code = 0
        try:
            os.close(r)
            try:
                payload = pickle.dumps(("ok", _call(args)), protocol=pickle.HIGHEST_PROTOCOL)
            except BaseException as exc:
                payload = pickle.dumps(("err", "%s: %s" % (type(exc).__name__, exc)), protocol=pickle.HIGHEST_PROTOCOL)
                code = 3
            with os.fdopen(w, "wb") as f:
                f.write(payload)
        finally:
            os._exit(code)
    os.close(w)
    with os.fdopen(r, "rb") as f:
        data = f.read()
    os.waitpid(pid, 0)
    if not data:
        raise HarnessError("isolated shard %r produced no result (child died)" % (args[2],))
    kind, val = pickle.loads(data)
    if kind == "err":
        raise HarnessError(val)
    return val


def _preload(modname):
    """import the property module and the code under test once per worker, so that forked shard children inherit them"""
    mod = sys.modules.get(modname) or __import__(modname, fromlist=["x"])
    pre = getattr(mod, "preload", None)
    if pre is not None:
        pre()


class Ctx:
    def __init__(self, prop_id, tier, seed, workers):
        self.id = prop_id
        self.tier = tier
        self.seed = seed
        self.workers = workers
        self.t0 = time.time()
        self._pool = None

    @property
    def quick(self):
        return self.tier == "quick"

    def pool(self):
        if self._pool is None:
            ctx = multiprocessing.get_context("fork")
            self._pool = ctx.Pool(self.workers, initializer=_worker_init, initargs=(self.seed,), maxtasksperchild=None)
        return self._pool

    def pmap(self, mod, fname, items, chunksize=1):
        """Run mod.fname(acc, item, tier, seed) for every item in worker processes; merged Acc.
        The order of items is permuted by the seed (exploration order only)."""
        items = list(items)
        if self.seed:
            import random
            random.Random(self.seed).shuffle(items)
        total = Acc()
        modname = mod if isinstance(mod, str) else mod.__name__
        args = [(modname, fname, it, self.tier, self.seed) for it in items]
        m = sys.modules.get(modname)
        isolate = bool(getattr(m, "ISOLATE_SHARDS", True)) and os.environ.get("VERIF_NO_ISOLATE") != "1"
        call = _call_isolated if isolate else _call
        if self.workers <= 1:
            _worker_init(self.seed)
            for a in args:
                total.merge(call(a))
        else:
            for acc in self.pool().imap_unordered(call, args, chunksize):
                total.merge(acc)
        return total

    def close(self):
        if self._pool is not None:
            self._pool.terminate()
            self._pool.join()
            self._pool = None


# ------------------------------------------------------------------------------------------------
# known findings

def load_known(prop_id):
    path = os.path.join(VERIF, "known_findings.json")
    if not os.path.exists(path):
        return []
    with open(path) as f:
        doc = json.load(f)
    return [k for k in doc.get("findings", []) if k.get("property") == prop_id]


def match_known(known, viol):
    for k in known:
        if k.get("kind") == viol["kind"]:
            return k
    return None


# ------------------------------------------------------------------------------------------------
# evidence

def write_evidence(mod, ctx, acc, extra_cov=None, violations=0):
    level = mod.LEVEL
    cov = {
        "evaluations": acc.evaluations,
        "distinct_nontrivial": acc.n_nontrivial,
        "rule": mod.RULE,
        "samples": acc.samples or ["(no sample recorded)"],
        "exhaustive": bool(getattr(mod, "EXHAUSTIVE", True)) and not acc.counters.get("cap_hit"),
        "outcomes": {str(k): v for k, v in sorted(acc.outcomes.items(), key=lambda kv: str(kv[0]))[:80]},
        "distinct_outcomes": len(acc.outcomes),
        "counters": {k: v for k, v in sorted(acc.counters.items())},
        "bounds": getattr(mod, "BOUNDS", {}).get(ctx.tier, ""),
        "notes": acc.notes,
    }
    if level == "model_checking":
        cov["states"] = max(1, len(acc.states) or acc.counters.get("states", 0))
        cov["transitions"] = max(1, acc.counters.get("transitions", acc.evaluations))
        cov["traces_validated_against_impl"] = acc.counters.get(
            "traces_validated_against_impl", acc.counters.get("transitions", acc.evaluations))
    if extra_cov:
        cov.update(extra_cov)
    doc = {
        "property_id": mod.ID,
        "tier": ctx.tier,
        "seed": ctx.seed,
        "level": level,
        "coverage": cov,
        "assumptions": STANDING_ASSUMPTIONS + list(getattr(mod, "ASSUMPTIONS", [])),
        "wall_s": round(time.time() - ctx.t0, 2),
        "violations": violations,
        "repo": os.environ.get("VERIF_REPO") or "/repo",
    }
    # evidence/ holds runs against /repo only; a run against another checkout (VERIF_REPO, used for seeded changes) is kept apart
    sub = "evidence" if not os.environ.get("VERIF_REPO") else os.path.join("scratch", "evidence-other-checkout")
    os.makedirs(os.path.join(VERIF, sub), exist_ok=True)
    path = os.path.join(VERIF, sub, mod.ID + ".json")
    tmp = path + ".tmp.%d" % os.getpid()
    with open(tmp, "w") as f:
        json.dump(doc, f, indent=1, sort_keys=False)
        f.write("\n")
    os.replace(tmp, path)
    return path


def write_replay(prop_id, viol):
    d = os.path.join(VERIF, "replays", prop_id)
    os.makedirs(d, exist_ok=True)
    body = {"property": prop_id, "kind": viol["kind"], "case": viol["case"], "msg": viol["msg"],
            "replay": "./check %s --replay <this file>" % prop_id}
    if viol.get("shard"):
        body["shard"] = viol["shard"]
    name = "%016x.json" % h64(json.dumps([viol["kind"], viol["case"]], sort_keys=True))
    path = os.path.join(d, name)
    with open(path, "w") as f:
        json.dump(body, f, indent=1)
        f.write("\n")
    return path


def detuple(x):
    """lists -> tuples (shard items are tuples; JSON gives lists)"""
    if isinstance(x, list):
        return tuple(detuple(v) for v in x)
    return x


def replay_shard(doc):
    """Fallback replay: re-run the violation's whole shard in this fresh process and return the messages of the violations
    with the same kind and the same case."""
    sh = doc.get("shard")
    if not sh:
        return []
    item = unjson(sh["item"])
    candidates = [detuple(item), item]
    want_case = json.dumps(doc["case"], sort_keys=True)
    for it in candidates:
        try:
            acc = _call((sh["mod"], sh["fname"], it, sh["tier"], 0))
        except Exception:
            continue
        msgs = [v["msg"] for v in acc.violations if v["kind"] == doc["kind"] and json.dumps(v["case"], sort_keys=True) == want_case]
        if not msgs:
            msgs = [v["msg"] for v in acc.violations if v["kind"] == doc["kind"]][:3]
        if msgs:
            return ["[reproduced by re-running its shard from the start] " + m for m in msgs]
    return []
