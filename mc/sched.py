"""E-sched: stateless, preemption-bounded exploration of real threads under a baton scheduler.

* Exactly one managed thread runs at a time (per-thread semaphores).  A thread gives up the baton only inside
  Scheduler.point(): at every operation on a library lock (CoopLock replaces every threading.Lock cpppo owns), at request
  boundaries, and -- granularity G1 -- before every source line of the watched functions (sys.monitoring LINE events
  enabled on exactly those code objects).
* A choice sequence determines the whole execution: at point i the enabled threads are listed canonically (the running
  thread first if it is still enabled, then ascending ids) and choice[i] indexes that list; beyond the given prefix
  choice 0 is taken.  An out-of-range choice while replaying a prefix is a hard error (divergence).
* explore() is the iterative-context-bounding DFS: all executions with at most `bound` preemptions (a preemption =
  switching away from a thread that could have continued).
"""
import sys
import threading

_active = [None]          # the Scheduler currently driving threads (None: locks behave as plain flags)


class Deadlock(Exception):
    pass


class Divergence(Exception):
    """replay of a recorded prefix met a different enabled set: nondeterminism the harness does not own"""


class CoopLock:
    """Drop-in for threading.Lock whose blocking is visible to the scheduler."""

    def __init__(self, name="lock"):
        self.owner = None
        self.name = name

    def acquire(self, blocking=True, timeout=-1):
        s = _active[0]
        me = s.me() if s is not None else None
        if me is None:
            if self.owner is not None:
                if not blocking:
                    return False
                raise RuntimeError("CoopLock %s held by %r while acquired outside the scheduler" % (self.name, self.owner))
            self.owner = "unmanaged"
            return True
        s.point(("acquire", self.name))
        while self.owner is not None:
            if not blocking:
                return False
            s.block_on(self)
        self.owner = me
        return True

    def release(self):
        s = _active[0]
        if self.owner is None:
            raise RuntimeError("release unlocked lock")
        self.owner = None
        if s is not None and s.me() is not None:
            s.unblock(self)
            s.point(("release", self.name))

    def locked(self):
        return self.owner is not None

    def __enter__(self):
        self.acquire()
        return self

    def __exit__(self, *a):
        self.release()
        return False


class Worker:
    def __init__(self, idx, fn):
        self.idx = idx
        self.fn = fn
        self.sem = threading.Semaphore(0)
        self.done = False
        self.blocked_on = None
        self.exc = None
        self.thread = None


class Execution:
    def __init__(self):
        self.points = []       # [(running idx, tag, enabled tuple)]
        self.choices = []      # choice index taken at each point
        self.preempt = []      # cumulative preemptions before point i


class Scheduler:
    def __init__(self, fns, prefix=(), max_points=20000):
        self.workers = [Worker(i, f) for i, f in enumerate(fns)]
        self.prefix = list(prefix)
        self.x = Execution()
        self.current = None
        self.main_sem = threading.Semaphore(0)
        self.max_points = max_points
        self.error = None
        self.by_ident = {}
        self.npre = 0

    # -- identity --------------------------------------------------------------------------------------
    def me(self):
        return self.by_ident.get(threading.get_ident())

    # -- scheduling ------------------------------------------------------------------------------------
    def enabled(self, running):
        out = []
        if running is not None and not running.done and running.blocked_on is None:
            out.append(running.idx)
        for w in self.workers:
            if w.idx not in out and not w.done and w.blocked_on is None:
                out.append(w.idx)
        return out

    def decide(self, running, tag):
        """one decision point; returns the Worker to run next (or None when all are done)"""
        en = self.enabled(running)
        if not en:
            if all(w.done for w in self.workers):
                return None
            raise Deadlock("no enabled thread: " + ", ".join(
                "T%d blocked on %s" % (w.idx, w.blocked_on.name) for w in self.workers if not w.done))
        i = len(self.x.points)
        if i >= self.max_points:
            raise Deadlock("more than %d scheduling points (livelock?)" % self.max_points)
        if i < len(self.prefix):
            c = self.prefix[i]
            if c >= len(en):
                raise Divergence("point %d: recorded choice %d but only %d enabled (%r at %r)" % (i, c, len(en), en, tag))
        else:
            c = 0
        self.x.points.append((running.idx if running is not None else None, tag, tuple(en)))
        self.x.choices.append(c)
        self.x.preempt.append(self.npre)
        nxt = self.workers[en[c]]
        if running is not None and not running.done and running.blocked_on is None and nxt is not running:
            self.npre += 1
        return nxt

    def point(self, tag):
        w = self.me()
        if w is None or self.error is not None:
            return
        try:
            nxt = self.decide(w, tag)
        except (Deadlock, Divergence) as e:
            self.abort(e)
            return
        if nxt is not w:
            self.switch(w, nxt)

    def switch(self, frm, to):
        self.current = to
        to.sem.release()
        frm.sem.acquire()
        if self.error is not None and not frm.done:
            raise SystemExit          # unwinds the worker thread after an abort

    def block_on(self, lock):
        w = self.me()
        w.blocked_on = lock
        try:
            nxt = self.decide(w, ("blocked", lock.name))
        except (Deadlock, Divergence) as e:
            w.blocked_on = None
            self.abort(e)
            raise SystemExit
        self.switch(w, nxt)

    def unblock(self, lock):
        for w in self.workers:
            if w.blocked_on is lock:
                w.blocked_on = None

    def abort(self, e):
        self.error = e
        self.main_sem.release()

    # -- running ---------------------------------------------------------------------------------------
    def _body(self, w):
        w.sem.acquire()
        try:
            if self.error is None:
                w.fn()
        except SystemExit:
            pass
        except BaseException as exc:
            w.exc = exc
        finally:
            w.done = True
            self.unblock_all_waiting_for_done()
            if self.error is None:
                try:
                    nxt = self.decide(w, ("exit",))
                except (Deadlock, Divergence) as e:
                    self.abort(e)
                    nxt = None
                else:
                    if nxt is None:
                        self.main_sem.release()
                    else:
                        self.current = nxt
                        nxt.sem.release()

    def unblock_all_waiting_for_done(self):
        pass

    def run(self):
        _active[0] = self
        try:
            for w in self.workers:
                w.thread = threading.Thread(target=self._body, args=(w,), daemon=True, name="T%d" % w.idx)
                w.thread.start()
                self.by_ident[w.thread.ident] = w
            first = self.decide(None, ("start",))
            self.current = first
            first.sem.release()
            if not self.main_sem.acquire(timeout=120):
                self.error = Deadlock("execution did not finish within 120 s (a thread is stuck outside the scheduler)")
            if self.error is not None:
                # let every parked thread unwind
                for w in self.workers:
                    if not w.done:
                        w.sem.release()
            for w in self.workers:
                w.thread.join(5)
        finally:
            _active[0] = None
        return self.x


# ------------------------------------------------------------------------------------------------------
# line-level points through sys.monitoring (CPython 3.12)

_TOOL = 4


class LineWatch:
    """Enable LINE events on the given code objects only; each event is a scheduling point for managed threads."""

    def __init__(self, codes, keep=None):
        """keep: {filename: set(line numbers)} -- only these lines are scheduling points; all other line events are switched off
        at their location (sys.monitoring.DISABLE), so they cost nothing afterwards.  None: every line."""
        self.codes = list(codes)
        self.keep = keep
        self.on = False
        LineWatch._keep = keep

    def start(self):
        mon = sys.monitoring
        if mon.get_tool(_TOOL) is None:
            mon.use_tool_id(_TOOL, "verif-sched")
        mon.register_callback(_TOOL, mon.events.LINE, self._cb)
        mon.restart_events()
        for c in self.codes:
            mon.set_local_events(_TOOL, c, mon.events.LINE)
        self.on = True

    def stop(self):
        mon = sys.monitoring
        for c in self.codes:
            mon.set_local_events(_TOOL, c, 0)
        mon.register_callback(_TOOL, mon.events.LINE, None)
        self.on = False

    _keep = None

    @staticmethod
    def _cb(code, line):
        keep = LineWatch._keep
        if keep is not None:
            ls = keep.get(code.co_filename)
            if ls is not None and line not in ls:
                return sys.monitoring.DISABLE
        s = _active[0]
        if s is not None and s.error is None and s.me() is not None:
            s.point(("line", code.co_name, line))


# ------------------------------------------------------------------------------------------------------
def explore(run_one, bound, prefix=(), budget=None, counters=None):
    """run_one(prefix) -> Execution (after checking it; it must raise/record violations itself).
    Iterative context bounding DFS below `prefix`.  Returns number of executions."""
    n = 0
    stack = [list(prefix)]
    while stack:
        p = stack.pop()
        x = run_one(p)
        n += 1
        if x is None:
            continue
        if budget is not None and n >= budget:
            if counters is not None:
                counters["cap_hit"] = counters.get("cap_hit", 0) + 1
            break
        for i in range(len(p), len(x.points)):
            running, tag, en = x.points[i]
            if len(en) < 2:
                continue
            cost = x.preempt[i]
            if running is not None and en[0] == running:
                cost += 1          # any alternative here switches away from a runnable thread
            if cost > bound:
                continue
            for alt in range(1, len(en)):
                stack.append(x.choices[:i] + [alt])
    return n
